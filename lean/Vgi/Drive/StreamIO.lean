import Vgi.Model.HttpStream
/-!
Parsing and rendering shared by the HTTP stream drivers (C16, C19, C11). Script syntax: see
`harness/c16.go`, `harness/c16_script.go`; rendering must agree with `harness/c16_env.go`.
-/
namespace Vgi.Drive.StreamIO
open Vgi Vgi.HttpStream Vgi.Generated.C16

/-! ### parsing -/

def hexBytes? (s : String) : Option Bytes := bytesOfHexAux s.toList

def bytesLt : Bytes → Bytes → Bool
  | [], [] => false
  | [], _ :: _ => true
  | _ :: _, [] => false
  | a :: r, b :: s => if a < b then true else if b < a then false else bytesLt r s

def strictlySorted : List Bytes → Bool
  | [] => true
  | [_] => true
  | a :: b :: r => bytesLt a b && strictlySorted (b :: r)

def allSome {α : Type} : List (Option α) → Option (List α)
  | [] => some []
  | none :: _ => none
  | some a :: r => (allSome r).map (a :: ·)

def parseIntList (s : String) : Option (List Int) :=
  if s = "" then some [] else allSome ((s.splitOn ".").map String.toInt?)

/-- `c1.2.-3` / `c` -/
def parseVals (s : String) : Option (List Int) :=
  match s.toList with
  | 'c' :: r => parseIntList (String.ofList r)
  | _ => none

def parseEmitMeta (s : String) : Option (List (Bytes × Bytes)) :=
  if s = "" then some [] else
  match allSome ((s.splitOn ",").map fun kv =>
      match kv.splitOn "=" with
      | [k, v] => match hexBytes? k, hexBytes? v with
        | some kb, some vb => some (kb, vb)
        | _, _ => none
      | _ => none) with
  | some l => if strictlySorted (l.map (·.1)) then some l else none
  | none => none

def parseFlag (s : String) : Option Bool :=
  if s = "0" then some false else if s = "1" then some true else none

def parseAct (a : String) : Option Act :=
  match a.toList with
  | 'l' :: r => (String.ofList r).toNat?.map Act.log
  | 'r' :: r => (String.ofList r).toNat?.map Act.fail
  | 'p' :: r => (String.ofList r).toNat?.map Act.panic
  | 'f' :: r => (parseFlag (String.ofList r)).map Act.finish
  | 'E' :: r =>
    match (String.ofList r).splitOn ":" with
    | [p, src] =>
      match parseFlag p with
      | some prop =>
        match src.toList with
        | 'c' :: vs => (parseIntList (String.ofList vs)).map fun l => Act.emitEcho (.const l) prop
        | 'i' :: n => (String.ofList n).toInt?.map fun k => Act.emitEcho (.input k) prop
        | 'n' :: nv => match (String.ofList nv).splitOn "x" with
          | [n, v] => match n.toNat?, v.toInt? with
            | some k, some x => some (Act.emitEcho (.rep k x) prop)
            | _, _ => none
          | _ => none
        | _ => none
      | none => none
    | _ => none
  | 'e' :: r =>
    match (String.ofList r).splitOn ":" with
    | [p, src, md] =>
      match parseFlag p, parseEmitMeta md with
      | some prop, some m =>
        match src.toList with
        | 'c' :: vs => (parseIntList (String.ofList vs)).map fun l => Act.emit (.const l) m prop
        | 'i' :: n => (String.ofList n).toInt?.map fun k => Act.emit (.input k) m prop
        | 'n' :: nv => match (String.ofList nv).splitOn "x" with
          | [n, v] => match n.toNat?, v.toInt? with
            | some k, some x => some (Act.emit (.rep k x) m prop)
            | _, _ => none
          | _ => none
        | _ => none
      | _, _ => none
    | _ => none
  | _ => none

def parseTick (t : String) : Option Tick :=
  if t = "_" then some [] else allSome ((t.splitOn ";").map parseAct)

def parseProg (p : String) : Option (List Tick) :=
  if p = "-" then some [] else allSome ((p.splitOn "/").map parseTick)

def parseCancel (s : String) : Option CancelAct :=
  if s = "absent" then some .absent else if s = "ok" then some .ok
  else if s = "err" then some .err else if s = "panic" then some .panic else none

def parseKind (s : String) : Option Bool :=
  if s = "ex" then some false else if s = "pr" then some true else none

/-- init method word: (dynamic, producer) -/
def parseInitKind (s : String) : Option (Bool × Bool) :=
  if s = "ex" then some (false, false) else if s = "pr" then some (false, true)
  else if s = "dx" then some (true, false) else if s = "dp" then some (true, true) else none

/-- `h<n>` header word -/
def parseHeaderWord (s : String) : Option Nat :=
  match s.toList with
  | 'h' :: r => match (String.ofList r).toNat? with
    | some n => if n > 0 then some n else none
    | none => none
  | _ => none

/-- continuation route word: (dynamic, kind); for the dynamic method the kind is whatever the
presented cursor's state is (`streamStateFits(MethodDynamic, _)` accepts both) -/
def routeOf (w : World) (md : Meta) (s : String) : Option (Bool × Bool) :=
  if s = "ex" then some (false, false) else if s = "pr" then some (false, true)
  else if s = "dyn" then
    some (true, match getFirst keyState md with
      | some tv => match openCursor w tv with
        | some cur => cur.st.producer
        | none => false
      | none => false)
  else none

/-- a symbolic reference to a token that was never handed out stands for a literal that cannot
open (the harness substitutes the same literal) -/
def neverMinted (sym : String) : Val := .lit (bytesOfString ("never-minted-" ++ sym))

def parseVal (w : World) (s : String) : Option Val :=
  match s.toList with
  | 'x' :: r => (bytesOfHexAux r).map Val.lit
  | 'T' :: r => (String.ofList r).toNat?.map fun i => if i < w.minted.length then .cursor i else neverMinted s
  | 'C' :: r => (String.ofList r).toNat?.map fun c => if c < w.calls then .call c else neverMinted s
  | _ => none

def parseMetaWord (w : World) (s : String) : Option (Bytes × Val) :=
  match s.splitOn "=" with
  | [k, v] => match hexBytes? k, parseVal w v with
    | some kb, some vv => some (kb, vv)
    | _, _ => none
  | _ => none

def parseMetaWords (w : World) (ws : List String) : Option Meta := allSome (ws.map (parseMetaWord w))

def parseKV (key : String) (s : String) : Option Nat :=
  match s.splitOn "=" with
  | [k, v] => if k = key then v.toNat? else none
  | _ => none

/-! ### rendering (must agree with `harness/c16_env.go`) -/

def errName : Err → String
  | .handler k => s!"handler{k}"
  | .panic k => s!"panic{k}"
  | .noData => "noData"
  | .secondEmit => "secondEmit"
  | .finishExchange => "finishExchange"
  | .capWire => "capWire"
  | .capExt => "capExt"
  | .missingToken => "missingToken"
  | .badToken => "badToken"
  | .wrongMethod => "wrongMethod"
  | .missingCall => "missingCall"
  | .badCall => "badToken"       -- indistinguishable on the wire ("Malformed state token")
  | .cast => "cast"
  | .resolve => "resolveExt"

def showInts (l : List Int) : String := ".".intercalate (l.map toString)

def showCursor (w : World) (i : Nat) : String :=
  match w.minted[i]? with
  | some c => s!"T{i}(c{c.call},p{c.st.pos})"
  | none => s!"T{i}"

def showFirst (w : World) : Option Val → String
  | none => "-"
  | some (.lit b) => "x" ++ hexOfBytes b
  | some (.cursor i) => showCursor w i
  | some (.call c) => s!"C{c}"

/-- Literal entries, sorted by (key, value): a handler's emit metadata reaches the wire through a Go map, so
    the order of distinct keys is not part of the observable behaviour. -/
def showLits (m : Meta) : String :=
  let lits : List (String × String) := m.filterMap fun kv => match kv.2 with
    | .lit b => some (hexOfBytes kv.1, hexOfBytes b)
    | _ => none
  let sorted := lits.mergeSort fun a b => decide (a.1 < b.1) || (a.1 == b.1 && decide (a.2 ≤ b.2))
  ",".intercalate (sorted.map fun kv => kv.1 ++ "=" ++ kv.2)

def showData (w : World) (vals : List Int) (m : Meta) : String :=
  "D[" ++ showInts vals ++ "]{" ++ showLits m ++ "}^" ++ showFirst w (getFirst keyState m) ++ "~" ++
    showFirst w (getFirst keyCall m)

def showBatch (w : World) : RBatch → String
  | .log m => s!"L{m}"
  | .exc e => "X:" ++ errName e
  | .data vals m => showData w vals m
  | .token m => showData w [] m

def showList (l : List String) : String := if l.isEmpty then "-" else ",".intercalate l

def showSeenVal : Val → String
  | .lit b => "x" ++ hexOfBytes b
  | .cursor i => s!"T{i}"
  | .call c => s!"C{c}"

def showSeen (m : Meta) : String :=
  "{" ++ ",".intercalate (m.map fun kv => hexOfBytes kv.1 ++ "=" ++ showSeenVal kv.2) ++ "}"

def showEvent (withSeen : Bool) : Event → String
  | .exchange pos seen input => s!"E{pos}" ++ showSeen seen ++ "[" ++ showInts input ++ "]"
  | .produce pos seen => if withSeen then s!"P{pos}" ++ showSeen seen else s!"P{pos}"
  | .cancel => "K"

def showResp (w : World) (r : Resp) (evs : List Event) (withSeen : Bool) : String :=
  toString r.status ++ (if r.rpcErr then "E" else "") ++ " " ++ showList ((r.header ++ r.batches).map (showBatch w)) ++
    " | " ++ showList (evs.map (showEvent withSeen))

def schemaOk? (s : String) : Option Bool :=
  if s = "ok" || s = "cast" then some true else if s = "bad" || s = "empty" then some false else none

end Vgi.Drive.StreamIO
