import Vgi.Model.Fetch
/-!
Line protocol for C31 (stateless; one line = the validation + fetch part of one
`ResolveExternalLocation` call).

```
fetch retries=<int> maxfetch=<int> maxdec=<int> maxredir=<int> val=<0|1> n=<#urls> rej=<idx,...|->
      redact=x<hex> routes=<k|idx|R;...|->
  -> log=<i>i>i/i/...|-> out=<rejected-first | fetched:<len> | failed:<n>:x<hex of error text>>
```
URLs are numbered; 0 is the pointer URL. `rej` lists the URLs the validator refuses. `routes`:
the origin's answer in attempt `k` (or `*`) for URL `idx`: `r:<idx>` redirect, `s:<code>` status,
`t` transport error, `b:<declared>:<len>:<readErr>:<zstd>:<declen|!>:<win>` a 200 whose body has
`len` encoded bytes (declared Content-Length or -1) and, for zstd, decodes to `declen` bytes (`!` =
corrupt) with frame window `win`. URLs without a route answer 404. `redact` is `redactExternalURL(pointer URL)`.
-/
namespace Vgi.Drive.C31
open Vgi Vgi.Fetch

def kv (ws : List String) (k : String) : Option String :=
  match ws.find? (fun w => w.startsWith (k ++ "=")) with
  | some w => some (String.ofList (w.toList.drop (k.length + 1)))
  | none => none

def flag (s : String) : Option Bool :=
  if s = "1" then some true else if s = "0" then some false else none

/-- URL number i is the one-element-per-digit byte string of i (distinct for distinct i). -/
def urlOf (i : Nat) : Bytes := bytesOfString (toString i)

structure Route where
  attempt : Option Nat
  url     : Nat
  resp    : Resp
  declen  : Option Nat     -- what a zstd body decodes to
  win     : Nat            -- its frame window

def parseResp (s : String) : Option (Resp × Option Nat × Nat) :=
  match s.splitOn ":" with
  | ["r", i] => i.toNat?.map fun i => (.redirect (urlOf i), none, 0)
  | ["s", c] => c.toNat?.map fun c => (.status c, none, 0)
  | ["t"] => some (.transport, none, 0)
  | ["b", d, l, re, z, dl, wn] => do
    let wn ← wn.toNat?
    let d ← d.toInt?
    let l ← l.toNat?
    let re ← flag re
    let z ← flag z
    let dl ← if dl = "!" then some none else dl.toNat?.map some
    -- the body is `l` bytes whose first byte carries an identity so that distinct bodies differ
    pure (.ok ⟨d, List.replicate l 0, re, z⟩, dl, wn)
  | _ => none

def parseRoute (s : String) : Option Route :=
  match s.splitOn "|" with
  | [k, i, r] => do
    let k ← if k = "*" then some none else k.toNat?.map some
    let i ← i.toNat?
    let (resp, dl, wn) ← parseResp r
    pure ⟨k, i, resp, dl, wn⟩
  | _ => none

def parseList {α : Type} (f : String → Option α) (sep : String) (s : String) : Option (List α) :=
  if s = "-" then some [] else (s.splitOn sep).mapM f

def lookup (routes : List Route) (k : Nat) (u : Bytes) : Option Route :=
  routes.find? fun r => (r.attempt == none || r.attempt == some k) && urlOf r.url == u

def showLog (log : List (List Bytes)) : String :=
  if log.isEmpty then "-"
  else "/".intercalate (log.map fun l => ">".intercalate (l.map fun u => String.ofList (u.map fun b => Char.ofNat b.toNat)))

def doFetch (ws : List String) : Option String := do
  let retries ← (kv ws "retries") >>= String.toInt?
  let maxFetch ← (kv ws "maxfetch") >>= String.toInt?
  let maxDec ← (kv ws "maxdec") >>= String.toInt?
  let maxRedir ← (kv ws "maxredir") >>= String.toInt?
  let valOn ← (kv ws "val") >>= flag
  let rej ← (kv ws "rej") >>= parseList String.toNat? ","
  let red ← (kv ws "redact") >>= parseHexArg
  let routes0 ← (kv ws "routes") >>= parseList parseRoute ";"
  -- give every scripted body its own byte value, so that distinct bodies are distinct byte strings
  let routes : List Route := routes0.zipIdx.map fun (r, i) =>
    match r.resp with
    | .ok b => { r with resp := .ok { b with bytes := List.replicate b.bytes.length (UInt8.ofNat (i + 1)) } }
    | _ => r
  let c : Cfg := ⟨retries, maxFetch, maxDec, maxRedir⟩
  let origin : Nat → Bytes → Resp := fun k u =>
    match lookup routes k u with
    | some r => r.resp
    | none => .status 404
  -- zstd decoding of a scripted body: determined by the route that served a body of that length
  let w : World :=
    { zdec := fun body =>
        match routes.find? (fun r => match r.resp with
            | .ok b => b.zstd && b.bytes == body
            | _ => false) with
        | some r => r.declen.map fun n => List.replicate n 1
        | none => none,
      zwin := fun body =>
        match routes.find? (fun r => match r.resp with
            | .ok b => b.zstd && b.bytes == body
            | _ => false) with
        | some r => r.win
        | none => 0,
      redact := fun _ => red }
  let validator : Option (Bytes → Bool) :=
    if valOn then some (fun u => !(rej.any fun i => urlOf i == u)) else none
  let r := fetchAll w c validator origin (urlOf 0)
  let out := match r.2 with
    | .rejectedFirst => "rejected-first"
    | .fetched d => s!"fetched:{d.length}"
    | .failed n e => s!"failed:{n}:" ++ hexArg (failedText w c (urlOf 0) n e)
  pure s!"log={showLog r.1} out={out}"

def step (st : Unit) (ws : List String) : Unit × String :=
  match ws with
  | "fetch" :: rest => (st, (doFetch rest).getD "bad-op")
  | _ => (st, "bad-op")

def drive : IO Unit := driveLoop () step

end Vgi.Drive.C31

def main : IO Unit := Vgi.Drive.C31.drive
