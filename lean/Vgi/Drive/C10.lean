import Vgi.Model.Semver
namespace Vgi.Drive.C10
open Vgi Vgi.Semver

def showVerdict : Verdict → String
  | .allow => "allow"
  | .absent => "refuse:absent"
  | .malformed => "refuse:malformed"
  | .clientTooOld => "refuse:client-too-old"
  | .serverTooOld => "refuse:server-too-old"

/-- What a route shows: the call reached its handler, or a ProtocolVersionError came back. -/
def showCall : Verdict → String
  | .allow => "dispatched"
  | .absent => "refused kind=protocol_version_mismatch dir=absent"
  | .malformed => "refused kind=protocol_version_mismatch dir=malformed"
  | .clientTooOld => "refused kind=protocol_version_mismatch dir=client-too-old"
  | .serverTooOld => "refused kind=protocol_version_mismatch dir=server-too-old"

/-- "-" = metadata key absent. -/
def optArg (s : String) : Option (Option Bytes) :=
  if s = "-" then some none else (parseHexArg s).map some

/-- Server argument = the history of SetProtocolVersion calls: "-" = none, else `v1,v2,…`. -/
def histArg (s : String) : Option (List Bytes) :=
  if s = "-" then some [] else (s.splitOn ",").mapM parseHexArg

def showSet : SetResult → String
  | .unset => "unset"
  | .set s => s!"set {s.major} {s.minor} {s.patch} {hexArg s.text}"
  | .panic => "panic"

def showState : Option Server → String
  | none => "unset"
  | some s => s!"set {s.major} {s.minor} {s.patch} {hexArg s.text}"

def showOutcome : Outcome → String
  | .dispatched => "dispatched"
  | .refused v => showCall v
  | .otherError => "other-error"

/-- Where the CURRENT code detects each other defect relative to the version guard (same on the
pipe, HTTP unary and HTTP stream-init routes). -/
def stageOf : String → Option Stage
  | "none" => some .none
  | "params-extra" => some .late
  | "params-renamed" => some .late
  | "params-retyped" => some .late
  | "rows0" => some .early
  | "rows2" => some .early
  | "unknown-method" => some .early
  | "no-method-key" => some .early
  | "bad-request-version" => some .early
  | "route-mismatch" => some .early
  | "wrong-route-kind" => some .early
  | "content-type" => some .early
  | _ => none

def callStep (route sv kind cv flaw : String) : String :=
  if route ≠ "pipe" ∧ route ≠ "http" then "bad-op"
  else if kind ≠ "describe" ∧ kind ≠ "unary" ∧ kind ≠ "producer" ∧ kind ≠ "exchange" then "bad-op"
  else match histArg sv, optArg cv, stageOf flaw with
    | some h, some c, some st => showOutcome (callOutcome (configureSeq h) (kind == "describe") c st)
    | _, _, _ => "bad-op"

def step (_ : Unit) (ws : List String) : Unit × String :=
  match ws with
  | ["parse", v] =>
    match parseHexArg v with
    | some b =>
      match parseSemver b with
      | some (x, y, z) => ((), s!"ok {x} {y} {z}")
      | none => ((), "err")
    | none => ((), "bad-op")
  | ["set", v] =>
    match parseHexArg v with
    | some b => ((), showSet (setVersion b))
    | none => ((), "bad-op")
  | ["hist", h] =>
    match histArg h with
    | some vs => ((), " ".intercalate (vs.map fun v => (showSet (setVersion v)).replace " " ":") ++
        " final=" ++ (showState (configureSeq vs)).replace " " ":")
    | none => ((), "bad-op")
  | ["check", sv, cv] =>
    match histArg sv, optArg cv with
    | some h, some c => ((), showVerdict (gate (configureSeq h) false c))
    | _, _ => ((), "bad-op")
  | ["call", route, sv, kind, cv] => ((), callStep route sv kind cv "none")
  | ["call", route, sv, kind, cv, flaw] => ((), callStep route sv kind cv flaw)
  | _ => ((), "bad-op")

def drive : IO Unit := driveLoop () step

end Vgi.Drive.C10

def main : IO Unit := Vgi.Drive.C10.drive
