import Vgi.Model.Semver
namespace Vgi.Drive.C10
open Vgi Vgi.Semver

def showVerdict : Verdict → String
  | .allow => "allow"
  | .absent => "refuse:absent"
  | .malformed => "refuse:malformed"
  | .clientTooOld => "refuse:client-too-old"
  | .serverTooOld => "refuse:server-too-old"

/-- What a route shows: the call reached its handler, or a ProtocolVersionError came back. -/
def showCall : Verdict → String
  | .allow => "dispatched"
  | .absent => "refused kind=protocol_version_mismatch dir=absent"
  | .malformed => "refused kind=protocol_version_mismatch dir=malformed"
  | .clientTooOld => "refused kind=protocol_version_mismatch dir=client-too-old"
  | .serverTooOld => "refused kind=protocol_version_mismatch dir=server-too-old"

/-- "-" = not given (server: no SetProtocolVersion call / client: metadata key absent). -/
def optArg (s : String) : Option (Option Bytes) :=
  if s = "-" then some none else (parseHexArg s).map some

/-- Server argument → configured server (`none` inside = opted out); outer `none` = panic. -/
def configure : Option Bytes → Option (Option Server)
  | none => some none
  | some v =>
    match setVersion v with
    | .unset => some none
    | .set s => some (some s)
    | .panic => none

def step (_ : Unit) (ws : List String) : Unit × String :=
  match ws with
  | ["parse", v] =>
    match parseHexArg v with
    | some b =>
      match parseSemver b with
      | some (x, y, z) => ((), s!"ok {x} {y} {z}")
      | none => ((), "err")
    | none => ((), "bad-op")
  | ["set", v] =>
    match parseHexArg v with
    | some b =>
      match setVersion b with
      | .unset => ((), "unset")
      | .set s => ((), s!"set {s.major} {s.minor} {s.patch} {hexArg s.text}")
      | .panic => ((), "panic")
    | none => ((), "bad-op")
  | ["check", sv, cv] =>
    match optArg sv, optArg cv with
    | some so, some c =>
      match configure so with
      | none => ((), "panic")
      | some srv => ((), showVerdict (gate srv false c))
    | _, _ => ((), "bad-op")
  | ["call", route, sv, kind, cv] =>
    if route ≠ "pipe" ∧ route ≠ "http" then ((), "bad-op")
    else if kind ≠ "describe" ∧ kind ≠ "unary" ∧ kind ≠ "producer" ∧ kind ≠ "exchange" then ((), "bad-op")
    else match optArg sv, optArg cv with
      | some so, some c =>
        match configure so with
        | none => ((), "panic")
        | some srv => ((), showCall (gate srv (kind == "describe") c))
      | _, _ => ((), "bad-op")
  | _ => ((), "bad-op")

def drive : IO Unit := driveLoop () step

end Vgi.Drive.C10

def main : IO Unit := Vgi.Drive.C10.drive
