import Vgi.Model.TokenScript
/-! Line-protocol driver for C14: the shared symbolic-token world (`Vgi.Token.step`). -/
namespace Vgi.Drive.C14
open Vgi Vgi.Token

def step (w : World) (ws : List String) : World × String := Vgi.Token.step w ws

def drive : IO Unit := driveLoop World.empty step

end Vgi.Drive.C14

def main : IO Unit := Vgi.Drive.C14.drive
