import Vgi.Model.RespHeaders
/-!
Line-protocol driver for C20. One server configuration per case, then requests.

  cfg cors=0|empty|cleared|1|star maxreq=Z maxresp=Z maxext=Z maxup=Z (negative = like 0)
      ext=0|nil|nostorage|nostoragethr|1|1thr upload=0|cleared|1 proofreq=0|off|1 introspect=0|1
      proxyhdrs=<a,b|-|empty> sticky=<-|Z+Z+…> echo=<a,b|-|empty|nil|cleared>
      comp=0|neg|1|default|lvl3|lvl4|back|badlvl hookfail=0|nilhook|1 pkce=0|1 pfx=</p|-|empty> …   -> ok
  recfg <any subset of those keys>   (setter calls on the live server; later responses are judged
      against the configuration then in force)                                               -> ok
  req <VERB> <path> rid=<x<hex>|absent> kind=<exit-path steering, harness only> … mint=<x<hex>>
      -> rid=<x<hex>|bad-mint> enc=<v|absent> ext=<v|absent> caps=<n=v;…|-> expose=<a,b,…|none>

`mint` is the environment's random draw: the X-Request-ID the server answered with. The model only
uses it when *it* decides to mint, and only after decoding it as 16 lower-case hex digits (8 bytes).
(keys the model does not know are ignored: they configure the harness side only)
-/
namespace Vgi.Drive.C20
open Vgi Vgi.RespHeaders

def kv (w : String) : Option (String × String) :=
  match w.splitOn "=" with
  | k :: v :: rest => some (k, "=".intercalate (v :: rest))
  | _ => none

def lookup (kvs : List (String × String)) (k : String) : Option String :=
  (kvs.find? fun p => p.1 = k).map (·.2)

def bool? (s : String) : Option Bool :=
  if s = "1" then some true else if s = "0" then some false else none

def list? (s : String) : List String := if s = "-" then [] else s.splitOn ","

structure St where
  cfg : Cfg
  pfx : String
  stickyCalls : List Int     -- TTLs of the EnableSticky calls made so far

/-- Every setter can be called in several ways; the script names the way, the model only sees what
the server's state then is. -/
def way (table : List (String × Bool)) (s : String) : Option Bool :=
  (table.find? fun p => p.1 = s).map (·.2)

def nat? (s : String) : Option Nat := s.toInt?.map Int.toNat   -- negative caps behave like 0 (`> 0` guards)

def emptyish (s : String) : Bool := s = "-" || s = "empty" || s = "nil" || s = "cleared"

def corsWays : List (String × Bool) := [("0", false), ("empty", false), ("cleared", false), ("1", true), ("star", true)]
def extWays : List (String × Bool) :=
  [("0", false), ("nil", false), ("nostorage", false), ("nostoragethr", false), ("1", true), ("1thr", true)]
def uploadWays : List (String × Bool) := [("0", false), ("cleared", false), ("1", true)]
def proofWays : List (String × Bool) := [("0", false), ("off", false), ("1", true)]
def compWays : List (String × Bool) :=
  [("0", false), ("neg", false), ("1", true), ("default", true), ("lvl3", true), ("lvl4", true), ("back", true)]
def hookWays : List (String × Bool) := [("0", false), ("nilhook", false), ("1", true)]

/-- the ways that mean "this setter is not called" -/
def noCall (k v : String) : Bool :=
  (v = "0" && (k = "ext" || k = "cors" || k = "upload" || k = "proofreq" || k = "hookfail" || k = "introspect" || k = "pkce")) ||
  (v = "default" && k = "comp") || (v = "-" && (k = "proxyhdrs" || k = "echo" || k = "sticky" || k = "pfx"))

def updKey {α : Type} (kvs : List (String × String)) (k : String) (f : String → Option α) (cur : α) : Option α :=
  match lookup kvs k with
  | none => some cur
  | some v => if noCall k v then some cur else f v

/-- Apply the setter calls a `cfg` / `recfg` line lists to the current state. Keys that are absent
leave the state alone (`cfg` starts from a freshly constructed server). -/
def applyCalls (st : St) (ws : List String) : Option St := do
  let kvs := ws.filterMap kv
  let upd := fun {α : Type} (k : String) (f : String → Option α) (cur : α) => updKey kvs k f cur
  let c := st.cfg
  let calls ← updKey kvs "sticky" (fun v => if v = "-" then some st.stickyCalls
      else ((v.splitOn "+").mapM String.toInt?).map (st.stickyCalls ++ ·)) st.stickyCalls
  let pfx ← upd "pfx" (fun s => some (if s = "-" || s = "empty" then "" else s)) st.pfx
  -- a level the setter rejects (`badlvl`) leaves the previous setting in place
  let comp ← upd "comp" (fun s => if s = "badlvl" then some c.compression else way compWays s) c.compression
  -- introspection can only be switched on
  let intro ← upd "introspect" (fun s => (bool? s).map (· || c.introspect)) c.introspect
  some {
    pfx := pfx
    stickyCalls := calls
    cfg := {
      cors := ← upd "cors" (way corsWays) c.cors
      maxRequestBytes := ← upd "maxreq" nat? c.maxRequestBytes
      maxResponseBytes := ← upd "maxresp" nat? c.maxResponseBytes
      maxExternalizedResponseBytes := ← upd "maxext" nat? c.maxExternalizedResponseBytes
      maxUploadBytes := ← upd "maxup" nat? c.maxUploadBytes
      externalStorage := ← upd "ext" (way extWays) c.externalStorage
      upload := ← upd "upload" (way uploadWays) c.upload
      proofRequired := ← upd "proofreq" (way proofWays) c.proofRequired
      introspect := intro
      extraProxyHeaders := ← upd "proxyhdrs" (fun s => some (if emptyish s then [] else s.splitOn ",")) c.extraProxyHeaders
      sticky := stickyTTL calls
      echoNames := ← upd "echo" (fun s => some (if emptyish s then [] else s.splitOn ",")) c.echoNames
      compression := comp
      hookFails := ← upd "hookfail" (way hookWays) c.hookFails
      pkce := ← upd "pkce" bool? c.pkce } }

/-- a freshly constructed HttpServer: nothing set, compression at its default level -/
def freshSt : St :=
  { pfx := "", stickyCalls := [],
    cfg := { cors := false, maxRequestBytes := 0, maxResponseBytes := 0, maxExternalizedResponseBytes := 0,
             maxUploadBytes := 0, externalStorage := false, upload := false, proofRequired := false,
             introspect := false, extraProxyHeaders := [], sticky := none, echoNames := [],
             compression := true, hookFails := false, pkce := false } }

def requiredCfgKeys : List String :=
  ["cors", "maxreq", "maxresp", "maxext", "maxup", "ext", "upload", "proofreq", "introspect", "proxyhdrs",
   "sticky", "echo", "comp", "hookfail", "pkce", "pfx"]

def parseCfg (ws : List String) : Option St :=
  let keys := (ws.filterMap kv).map (·.1)
  if requiredCfgKeys.all keys.contains then applyCalls freshSt ws else none

def hexNibble (c : Char) : Option Nat :=
  if '0' ≤ c ∧ c ≤ '9' then some (c.toNat - 48)
  else if 'a' ≤ c ∧ c ≤ 'f' then some (c.toNat - 87)
  else none

/-- lower-case hex text -> bytes (what `hex.EncodeToString` would have produced it from) -/
def decodeLowerHex : List Char → Option (List UInt8)
  | [] => some []
  | [_] => none
  | a :: b :: r =>
    match hexNibble a, hexNibble b, decodeLowerHex r with
    | some x, some y, some rest => some (UInt8.ofNat (x * 16 + y) :: rest)
    | _, _, _ => none

def strOfBytes (bs : Bytes) : Option String := String.fromUTF8? ⟨bs.toArray⟩

def insertSorted (s : String) : List String → List String
  | [] => [s]
  | x :: r => if s < x then s :: x :: r else x :: insertSorted s r

def sortStrings (l : List String) : List String := l.foldr insertSorted []

/-- the conditional capability headers, in the order the harness prints them -/
def conditionalCaps : List String :=
  [hMaxRequestBytes, hMaxResponseBytes, hMaxExternalized, hUploadURL, hMaxUploadBytes, hProofRequired,
   hIntrospect, hStickyEnabled, hStickyTTL, hStickyEchoHeaders]

def showObs (h : Headers) (rid : String) : String :=
  let opt := fun n => (hget h n).getD "absent"
  let caps := conditionalCaps.filterMap fun n => (hget h n).map fun v => s!"{n}={v}"
  let capsS := if caps.isEmpty then "-" else ";".intercalate caps
  let expose := match hget h hExpose with
    | none => "none"
    | some v => ",".intercalate (sortStrings (v.splitOn ", "))
  s!"rid={rid} enc={opt hSupportedEncodings} ext={opt hExternalization} caps={capsS} expose={expose}"

def step (st : Option St) (ws : List String) : Option St × String :=
  match ws with
  | "cfg" :: rest =>
    match parseCfg rest with
    | some c => (some c, "ok")
    | none => (st, "bad-op")
  | "recfg" :: rest =>
    -- further setter calls on the live server, between requests
    match st with
    | none => (st, "err:no-cfg")
    | some s =>
      match applyCalls s rest with
      | some s' => (some s', "ok")
      | none => (st, "bad-op")
  | "req" :: verb :: path :: rest =>
    match st with
    | none => (st, "err:no-cfg")
    | some s =>
      let kvs := rest.filterMap kv
      let r? : Option (List Char × Option (List UInt8) × Bool) := do
        let ridArg ← lookup kvs "rid"
        let hdr ← if ridArg = "absent" then some [] else (parseHexArg ridArg).bind fun b => (strOfBytes b).map String.toList
        let mintArg ← lookup kvs "mint"
        let mintChars ← (parseHexArg mintArg).bind fun b => (strOfBytes b).map String.toList
        let rnd := if mintChars.length = 16 then decodeLowerHex mintChars else none
        let kind ← lookup kvs "kind"
        some (hdr, rnd, kind = "toolarge")
      match r? with
      | none => (st, "bad-op")
      | some (hdr, rnd, tooLarge) =>
        let req : Req := {
          options := verb = "OPTIONS"
          tokenProxyPath := path = s.pfx ++ "/_oauth/token"
          overLimit := tooLarge && s.cfg.maxRequestBytes > 0
          requestID := hdr }
        let h := serveHeaders s.cfg req (rnd.getD []) []
        -- the model minted but the environment's draw is not a mint: report it
        let ridChars := resolveRequestID hdr (rnd.getD [])
        let rid := if rnd.isNone && ridChars.isEmpty then "bad-mint"
          else hexArg (String.ofList ridChars).toUTF8.toList
        (st, showObs h rid)
  | _ => (st, "bad-op")

def drive : IO Unit := driveLoop (none : Option St) step

end Vgi.Drive.C20

def main : IO Unit := Vgi.Drive.C20.drive
