import Vgi.Model.RespHeaders
/-!
Line-protocol driver for C20. One server configuration per case, then requests.

  cfg cors=0|1 maxreq=N maxresp=N maxext=N maxup=N ext=0|1 upload=0|1 proofreq=0|1 introspect=0|1
      proxyhdrs=<a,b|-> sticky=<N|-> echo=<a,b|-> comp=0|1 hookfail=0|1 pkce=0|1 pfx=</p|-> …   -> ok
  req <VERB> <path> rid=<x<hex>|absent> kind=<exit-path steering, harness only> … mint=<x<hex>>
      -> rid=<x<hex>|bad-mint> enc=<v|absent> ext=<v|absent> caps=<n=v;…|-> expose=<a,b,…|none>

`mint` is the environment's random draw: the X-Request-ID the server answered with. The model only
uses it when *it* decides to mint, and only after decoding it as 16 lower-case hex digits (8 bytes).
(keys the model does not know are ignored: they configure the harness side only)
-/
namespace Vgi.Drive.C20
open Vgi Vgi.RespHeaders

def kv (w : String) : Option (String × String) :=
  match w.splitOn "=" with
  | k :: v :: rest => some (k, "=".intercalate (v :: rest))
  | _ => none

def lookup (kvs : List (String × String)) (k : String) : Option String :=
  (kvs.find? fun p => p.1 = k).map (·.2)

def bool? (s : String) : Option Bool :=
  if s = "1" then some true else if s = "0" then some false else none

def list? (s : String) : List String := if s = "-" then [] else s.splitOn ","

structure St where
  cfg : Cfg
  pfx : String

def parseCfg (ws : List String) : Option St := do
  let kvs := ws.filterMap kv
  let g := fun k => lookup kvs k
  let b := fun k => (g k).bind bool?
  let n := fun k => (g k).bind String.toNat?
  let sticky ← (g "sticky").bind fun s => if s = "-" then some none else s.toNat?.map some
  let pfx ← (g "pfx").map fun s => if s = "-" then "" else s
  some {
    pfx := pfx
    cfg := {
      cors := ← b "cors"
      maxRequestBytes := ← n "maxreq"
      maxResponseBytes := ← n "maxresp"
      maxExternalizedResponseBytes := ← n "maxext"
      maxUploadBytes := ← n "maxup"
      externalStorage := ← b "ext"
      upload := ← b "upload"
      proofRequired := ← b "proofreq"
      introspect := ← b "introspect"
      extraProxyHeaders := list? (← g "proxyhdrs")
      sticky := sticky
      echoNames := list? (← g "echo")
      compression := ← b "comp"
      hookFails := ← b "hookfail"
      pkce := ← b "pkce" } }

def hexNibble (c : Char) : Option Nat :=
  if '0' ≤ c ∧ c ≤ '9' then some (c.toNat - 48)
  else if 'a' ≤ c ∧ c ≤ 'f' then some (c.toNat - 87)
  else none

/-- lower-case hex text -> bytes (what `hex.EncodeToString` would have produced it from) -/
def decodeLowerHex : List Char → Option (List UInt8)
  | [] => some []
  | [_] => none
  | a :: b :: r =>
    match hexNibble a, hexNibble b, decodeLowerHex r with
    | some x, some y, some rest => some (UInt8.ofNat (x * 16 + y) :: rest)
    | _, _, _ => none

def strOfBytes (bs : Bytes) : Option String := String.fromUTF8? ⟨bs.toArray⟩

def insertSorted (s : String) : List String → List String
  | [] => [s]
  | x :: r => if s < x then s :: x :: r else x :: insertSorted s r

def sortStrings (l : List String) : List String := l.foldr insertSorted []

/-- the conditional capability headers, in the order the harness prints them -/
def conditionalCaps : List String :=
  [hMaxRequestBytes, hMaxResponseBytes, hMaxExternalized, hUploadURL, hMaxUploadBytes, hProofRequired,
   hIntrospect, hStickyEnabled, hStickyTTL, hStickyEchoHeaders]

def showObs (h : Headers) (rid : String) : String :=
  let opt := fun n => (hget h n).getD "absent"
  let caps := conditionalCaps.filterMap fun n => (hget h n).map fun v => s!"{n}={v}"
  let capsS := if caps.isEmpty then "-" else ";".intercalate caps
  let expose := match hget h hExpose with
    | none => "none"
    | some v => ",".intercalate (sortStrings (v.splitOn ", "))
  s!"rid={rid} enc={opt hSupportedEncodings} ext={opt hExternalization} caps={capsS} expose={expose}"

def step (st : Option St) (ws : List String) : Option St × String :=
  match ws with
  | "cfg" :: rest =>
    match parseCfg rest with
    | some c => (some c, "ok")
    | none => (st, "bad-op")
  | "req" :: verb :: path :: rest =>
    match st with
    | none => (st, "err:no-cfg")
    | some s =>
      let kvs := rest.filterMap kv
      let r? : Option (List Char × Option (List UInt8) × Bool) := do
        let ridArg ← lookup kvs "rid"
        let hdr ← if ridArg = "absent" then some [] else (parseHexArg ridArg).bind fun b => (strOfBytes b).map String.toList
        let mintArg ← lookup kvs "mint"
        let mintChars ← (parseHexArg mintArg).bind fun b => (strOfBytes b).map String.toList
        let rnd := if mintChars.length = 16 then decodeLowerHex mintChars else none
        let kind ← lookup kvs "kind"
        some (hdr, rnd, kind = "toolarge")
      match r? with
      | none => (st, "bad-op")
      | some (hdr, rnd, tooLarge) =>
        let req : Req := {
          options := verb = "OPTIONS"
          tokenProxyPath := path = s.pfx ++ "/_oauth/token"
          overLimit := tooLarge && s.cfg.maxRequestBytes > 0
          requestID := hdr }
        let h := serveHeaders s.cfg req (rnd.getD []) []
        -- the model minted but the environment's draw is not a mint: report it
        let ridChars := resolveRequestID hdr (rnd.getD [])
        let rid := if rnd.isNone && ridChars.isEmpty then "bad-mint"
          else hexArg (String.ofList ridChars).toUTF8.toList
        (st, showObs h rid)
  | _ => (st, "bad-op")

def drive : IO Unit := driveLoop (none : Option St) step

end Vgi.Drive.C20

def main : IO Unit := Vgi.Drive.C20.drive
