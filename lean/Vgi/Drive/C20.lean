import Vgi.Model.RespHeaders
/-!
Line-protocol driver for C20. One server configuration per case, then requests.

  cfg cors=0|empty|cleared|1|star maxreq=Z maxresp=Z maxext=Z maxup=Z (negative = like 0)
      ext=0|nil|nostorage|nostoragethr|1|1thr upload=0|cleared|1 proofreq=0|off|1 introspect=0|1
      proxyhdrs=<a,b|-|empty> sticky=<-|Z+Z+…> echo=<a,b|-|empty|nil|cleared>
      comp=0|neg|1|default|lvl3|lvl4|back|badlvl hookfail=0|nilhook|1 pkce=0|1 pfx=</p|-|empty> …   -> ok
  req <VERB> <path> rid=<x<hex>|absent> kind=<exit-path steering, harness only> … mint=<x<hex>>
      -> rid=<x<hex>|bad-mint> enc=<v|absent> ext=<v|absent> caps=<n=v;…|-> expose=<a,b,…|none>

`mint` is the environment's random draw: the X-Request-ID the server answered with. The model only
uses it when *it* decides to mint, and only after decoding it as 16 lower-case hex digits (8 bytes).
(keys the model does not know are ignored: they configure the harness side only)
-/
namespace Vgi.Drive.C20
open Vgi Vgi.RespHeaders

def kv (w : String) : Option (String × String) :=
  match w.splitOn "=" with
  | k :: v :: rest => some (k, "=".intercalate (v :: rest))
  | _ => none

def lookup (kvs : List (String × String)) (k : String) : Option String :=
  (kvs.find? fun p => p.1 = k).map (·.2)

def bool? (s : String) : Option Bool :=
  if s = "1" then some true else if s = "0" then some false else none

def list? (s : String) : List String := if s = "-" then [] else s.splitOn ","

structure St where
  cfg : Cfg
  pfx : String

/-- Every setter can be called in several ways; the script names the way, the model only sees what
the server's state then is. -/
def way (table : List (String × Bool)) (s : String) : Option Bool :=
  (table.find? fun p => p.1 = s).map (·.2)

def nat? (s : String) : Option Nat := s.toInt?.map Int.toNat   -- negative caps behave like 0 (`> 0` guards)

def emptyish (s : String) : Bool := s = "-" || s = "empty" || s = "nil" || s = "cleared"

def parseCfg (ws : List String) : Option St := do
  let kvs := ws.filterMap kv
  let g := fun k => lookup kvs k
  let n := fun k => (g k).bind nat?
  let stickyArg ← g "sticky"
  let sticky ← if stickyArg = "-" then some none
    else ((stickyArg.splitOn "+").mapM String.toInt?).map stickyTTL
  let pfx ← (g "pfx").map fun s => if s = "-" || s = "empty" then "" else s
  some {
    pfx := pfx
    cfg := {
      cors := ← (g "cors").bind (way [("0", false), ("empty", false), ("cleared", false), ("1", true), ("star", true)])
      maxRequestBytes := ← n "maxreq"
      maxResponseBytes := ← n "maxresp"
      maxExternalizedResponseBytes := ← n "maxext"
      maxUploadBytes := ← n "maxup"
      externalStorage := ← (g "ext").bind (way [("0", false), ("nil", false), ("nostorage", false),
        ("nostoragethr", false), ("1", true), ("1thr", true)])
      upload := ← (g "upload").bind (way [("0", false), ("cleared", false), ("1", true)])
      proofRequired := ← (g "proofreq").bind (way [("0", false), ("off", false), ("1", true)])
      introspect := ← (g "introspect").bind bool?
      extraProxyHeaders := ← (g "proxyhdrs").map fun s => if emptyish s then [] else s.splitOn ","
      sticky := sticky
      echoNames := ← (g "echo").map fun s => if emptyish s then [] else s.splitOn ","
      compression := ← (g "comp").bind (way [("0", false), ("neg", false), ("1", true), ("default", true),
        ("lvl3", true), ("lvl4", true), ("back", true), ("badlvl", true)])
      hookFails := ← (g "hookfail").bind (way [("0", false), ("nilhook", false), ("1", true)])
      pkce := ← (g "pkce").bind bool? } }

def hexNibble (c : Char) : Option Nat :=
  if '0' ≤ c ∧ c ≤ '9' then some (c.toNat - 48)
  else if 'a' ≤ c ∧ c ≤ 'f' then some (c.toNat - 87)
  else none

/-- lower-case hex text -> bytes (what `hex.EncodeToString` would have produced it from) -/
def decodeLowerHex : List Char → Option (List UInt8)
  | [] => some []
  | [_] => none
  | a :: b :: r =>
    match hexNibble a, hexNibble b, decodeLowerHex r with
    | some x, some y, some rest => some (UInt8.ofNat (x * 16 + y) :: rest)
    | _, _, _ => none

def strOfBytes (bs : Bytes) : Option String := String.fromUTF8? ⟨bs.toArray⟩

def insertSorted (s : String) : List String → List String
  | [] => [s]
  | x :: r => if s < x then s :: x :: r else x :: insertSorted s r

def sortStrings (l : List String) : List String := l.foldr insertSorted []

/-- the conditional capability headers, in the order the harness prints them -/
def conditionalCaps : List String :=
  [hMaxRequestBytes, hMaxResponseBytes, hMaxExternalized, hUploadURL, hMaxUploadBytes, hProofRequired,
   hIntrospect, hStickyEnabled, hStickyTTL, hStickyEchoHeaders]

def showObs (h : Headers) (rid : String) : String :=
  let opt := fun n => (hget h n).getD "absent"
  let caps := conditionalCaps.filterMap fun n => (hget h n).map fun v => s!"{n}={v}"
  let capsS := if caps.isEmpty then "-" else ";".intercalate caps
  let expose := match hget h hExpose with
    | none => "none"
    | some v => ",".intercalate (sortStrings (v.splitOn ", "))
  s!"rid={rid} enc={opt hSupportedEncodings} ext={opt hExternalization} caps={capsS} expose={expose}"

def step (st : Option St) (ws : List String) : Option St × String :=
  match ws with
  | "cfg" :: rest =>
    match parseCfg rest with
    | some c => (some c, "ok")
    | none => (st, "bad-op")
  | "req" :: verb :: path :: rest =>
    match st with
    | none => (st, "err:no-cfg")
    | some s =>
      let kvs := rest.filterMap kv
      let r? : Option (List Char × Option (List UInt8) × Bool) := do
        let ridArg ← lookup kvs "rid"
        let hdr ← if ridArg = "absent" then some [] else (parseHexArg ridArg).bind fun b => (strOfBytes b).map String.toList
        let mintArg ← lookup kvs "mint"
        let mintChars ← (parseHexArg mintArg).bind fun b => (strOfBytes b).map String.toList
        let rnd := if mintChars.length = 16 then decodeLowerHex mintChars else none
        let kind ← lookup kvs "kind"
        some (hdr, rnd, kind = "toolarge")
      match r? with
      | none => (st, "bad-op")
      | some (hdr, rnd, tooLarge) =>
        let req : Req := {
          options := verb = "OPTIONS"
          tokenProxyPath := path = s.pfx ++ "/_oauth/token"
          overLimit := tooLarge && s.cfg.maxRequestBytes > 0
          requestID := hdr }
        let h := serveHeaders s.cfg req (rnd.getD []) []
        -- the model minted but the environment's draw is not a mint: report it
        let ridChars := resolveRequestID hdr (rnd.getD [])
        let rid := if rnd.isNone && ridChars.isEmpty then "bad-mint"
          else hexArg (String.ofList ridChars).toUTF8.toList
        (st, showObs h rid)
  | _ => (st, "bad-op")

def drive : IO Unit := driveLoop (none : Option St) step

end Vgi.Drive.C20

def main : IO Unit := Vgi.Drive.C20.drive
