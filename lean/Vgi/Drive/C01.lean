import Vgi.Model.WireScript
/-!
Line-protocol driver for C01 (see `harness/c01.go`).

  wr <method x..> <pv x..> <schema> <rows> <cells>     the body WriteRequest produces
  wu <schema> <result x..>                              the body WriteUnaryResult produces
  body {S|SX <schema> {B <rows> <cells> <meta> | K <token x..> <call x..>}} [J]
                                                        an abstract body (SX: broken stream,
                                                        K: batch stamped by writeStateTokenBatch,
                                                        J: junk after the last stream)

Answer: what the four readers return on that body:
  rr=<ReadRequest> tok=<FindStreamTokens> fpv=<FindProtocolVersion> ur=<ReadUnaryResult>

  <schema> = - | hexname:hextype:0|1,...      <cells> = - | x<hex>;x<hex>;...
  <meta>   = - | hexkey=hexval,...
-/
namespace Vgi.Drive.C01
open Vgi Vgi.Wire Vgi.WireScript

/-! rendering -/

def hx (b : Bytes) : String := hexArg b
def hexRaw (b : Bytes) : String := hexOfBytes b

def renderSchema (s : Schema) : String :=
  if s.isEmpty then "-"
  else ",".intercalate (s.map fun f => hexRaw f.name ++ ":" ++ hexRaw f.ty ++ ":" ++ (if f.nullable then "1" else "0"))

def renderCells (c : List Bytes) : String :=
  if c.isEmpty then "-" else ";".intercalate (c.map hx)

def renderOpt (o : Option Bytes) : String :=
  match o with
  | some b => hx b
  | none => "-"

def renderRR (r : Except ReadErr Request) : String :=
  match r with
  | .error .eof => "eof"
  | .error .transport => "transport"
  | .error (.rpc ty) => "rpc:" ++ ty.name
  | .ok q =>
    "ok:" ++ hx q.method ++ ":" ++ hx q.version ++ ":" ++ hx q.requestId ++ ":" ++ hx q.logLevel ++ ":" ++
      renderOpt (q.metaMap kProtocolVersion) ++ ":" ++ renderSchema q.schema ++ ":" ++
      toString q.batch.rows ++ ":" ++ renderCells q.batch.cells

def renderAll (b : Body) : String :=
  let tk := findStreamTokens b
  let ur := match readUnaryResult b with
    | some (sch, bs) => "ok:" ++ renderSchema sch ++ ":" ++ hx bs
    | none => "no"
  "rr=" ++ renderRR (readRequest b) ++ " tok=" ++ renderOpt tk.1 ++ "/" ++ renderOpt tk.2 ++
    " fpv=" ++ hx (findProtocolVersion b) ++ " ur=" ++ ur

def step (st : Unit) (ws : List String) : Unit × String :=
  match ws with
  | ["wr", m, pv, sch, rows, cells] =>
    match parseHexArg m, parseHexArg pv, parseSchema sch, rows.toNat?, parseCells cells with
    | some mb, some pvb, some s, some r, some c =>
      (st, renderAll ⟨[writeRequest mb ⟨s, r, c⟩ pvb], false⟩)
    | _, _, _, _, _ => (st, "bad-op")
  | ["wu", sch, res] =>
    match parseSchema sch, parseHexArg res with
    | some s, some r =>
      match writeUnaryResult s r with
      | some strm => (st, renderAll ⟨[strm], false⟩)
      | none => (st, "err:envelope")
    | _, _ => (st, "bad-op")
  | "body" :: rest =>
    match parseStreams 64 rest with
    | some (ss, junk) => (st, renderAll ⟨ss, junk⟩)
    | none => (st, "bad-op")
  | _ => (st, "bad-op")

def drive : IO Unit := driveLoop () step

end Vgi.Drive.C01

def main : IO Unit := Vgi.Drive.C01.drive
