import Vgi.Model.Keys
/-!
Line protocol for C33 (stateless).

```
fmt x<hex bytes>                       -> the canonical text of those bytes (formatUUID)
s3 prefix=x<hex> draw=x<hex 16 bytes>|!  -> the S3 object key for that draw (`!` = the entropy read failed: `refused`)
s3r prefix=x<hex> chunks=<hex>,<hex>,...  -> the S3 key when the entropy source delivered those read results
gcs prefix=x<hex> uuid=x<hex 16 bytes>|! zstd=<0|1> -> the GCS object key, or `refused`
```
-/
namespace Vgi.Drive.C33
open Vgi Vgi.Keys

def kv (ws : List String) (k : String) : Option String :=
  match ws.find? (fun w => w.startsWith (k ++ "=")) with
  | some w => some (String.ofList (w.toList.drop (k.length + 1)))
  | none => none

def charsOf (b : Bytes) : List Char := b.map fun x => Char.ofNat x.toNat

def parseDraw (s : String) : Option (Option Bytes) :=
  if s = "!" then some none else (parseHexArg s).map some

def showKey : Option (List Char) → String
  | some k => String.ofList k
  | none => "refused"

def step (st : Unit) (ws : List String) : Unit × String :=
  match ws with
  | ["fmt", h] => match parseHexArg h with
    | some b => (st, String.ofList (formatUUID b))
    | none => (st, "bad-op")
  | "s3" :: rest =>
    match (kv rest "prefix") >>= parseHexArg, (kv rest "draw") >>= parseDraw with
    | some p, some d => (st, showKey (s3Upload (charsOf p) d))
    | _, _ => (st, "bad-op")
  | "s3r" :: rest =>
    -- the generator over a chunked entropy source: chunks=<hex>,<hex>,... (the successive read results)
    match (kv rest "prefix") >>= parseHexArg, kv rest "chunks" with
    | some p, some cs =>
      match (cs.splitOn ",").mapM (fun h => parseHexArg ("x" ++ h)) with
      | some chunks => (st, showKey ((generateUUIDFrom chunks).map (charsOf p ++ ·)))
      | none => (st, "bad-op")
    | _, _ => (st, "bad-op")
  | "gcs" :: rest =>
    match (kv rest "prefix") >>= parseHexArg, (kv rest "uuid") >>= parseDraw, kv rest "zstd" with
    | some p, some u, some z =>
      if z = "1" then (st, showKey (gcsUpload (charsOf p) u true))
      else if z = "0" then (st, showKey (gcsUpload (charsOf p) u false))
      else (st, "bad-op")
    | _, _, _ => (st, "bad-op")
  | _ => (st, "bad-op")

def drive : IO Unit := driveLoop () step

end Vgi.Drive.C33

def main : IO Unit := Vgi.Drive.C33.drive
