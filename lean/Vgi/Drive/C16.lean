import Vgi.Drive.StreamIO
/-!
Line-protocol driver for C16. Script syntax: see `harness/c16.go`.
-/
namespace Vgi.Drive.C16
open Vgi Vgi.HttpStream Vgi.Generated.C16 Vgi.Drive.StreamIO

/-! ### the driver -/

structure St where
  cfg : Option Cfg := none
  hdr : Bool := false            -- the static methods are registered with a header type
  w : World := World.empty

def defaultCfg : Cfg := { cacheOn := true, maxResp := 0, maxExt := 0, extOn := false, batchLimit := 0 }

def parseCfg (ws : List String) : Option Cfg :=
  ws.foldl (fun acc w => match acc with
    | none => none
    | some c =>
      match w.splitOn "=" with
      | [k, v] => match v.toNat? with
        | some n =>
          if k = "cache" then some { c with cacheOn := n != 0 }
          else if k = "maxresp" then some { c with maxResp := n }
          else if k = "maxext" then some { c with maxExt := n }
          else if k = "limit" then some { c with batchLimit := n }
          else if k = "xin" then some { c with extIn := n != 0 || c.extOn }  -- a storage config also resolves inputs
          else if k = "ext" then some { c with extOn := n != 0, extIn := c.extIn || n != 0 }
          else if k = "thr" then some { c with threshold := if n = 0 then 1048576 else n }
          else if k = "zstd" then some c
          else if k = "inst" || k = "hdr" then some c
          else none
        | none => none
      | _ => none) (some defaultCfg)

def step (st : St) (ws : List String) : St × String :=
  let cfg := st.cfg.getD defaultCfg
  match ws with
  | "cfg" :: rest =>
    match st.cfg, parseCfg rest with
    | none, some c => ({ st with cfg := some c, hdr := rest.contains "hdr=1" }, "ok")
    | _, _ => (st, "bad-op")
  | "init" :: inst :: kind :: cancel :: prog :: rest =>
    -- optional words: h<n> (header value), dual (the state's TYPE implements both stream interfaces:
    -- no effect on the model — dispatch follows the registered method)
    let rest' := rest.filter (· != "dual")
    let dualOk := rest.length ≤ rest'.length + 1 && (rest.length = rest'.length || kind = "ex" || kind = "pr")
    let hdr? : Option (Option Nat) := if !dualOk then none else match rest' with
      | [] => some none
      | [h] => (parseHeaderWord h).map some
      | _ => none
    match inst.toNat?, parseInitKind kind, parseCancel cancel, parseProg prog, hdr? with
    | some i, some (dyn, pr), some ca, some p, some hdr =>
      let rq : InitReq := { inst := i, st := { prog := p, pos := 0, producer := pr, cancel := ca },
                            dynamic := dyn, hasHeader := dyn || st.hdr, header := hdr }
      let (resp, w', evs) := handleInit cfg st.w rq
      ({ st with cfg := some cfg, w := w' }, showResp w' resp evs false)
    | _, _, _, _, _ => (st, "bad-op")
  | "x" :: inst :: route :: schema :: vals :: rest =>
    match rest.getLast?, inst.toNat?, schemaOk? schema, parseVals vals with
    | some last, some i, some sok, some vs =>
      let words := rest.dropLast
      -- "@" / "@!" separates the pointer batch's metadata from the fetched batch's
      let ptrWords := words.takeWhile fun x => x != "@" && x != "@!"
      let tail := words.drop ptrWords.length
      let fetch? : Option (Option (Option (List String))) := match tail with
        | [] => some none
        | "@" :: fw => some (some (some fw))
        | ["@!"] => some (some none)
        | _ => none
      match parseKV "wire" last, parseMetaWords st.w ptrWords, fetch? with
      | some wire, some md, some fetch =>
        let fetched? : Option (Option (Option Fetched)) := match fetch with
          | none => some none
          | some none => some (some none)
          | some (some fw) => match parseMetaWords st.w fw with
            | some fmd => some (some (some { md := fmd, vals := if schema = "empty" then [] else vs,
                                             schemaOk := sok, exact := schema = "ok" }))
            | none => none
        match fetched? with
        | none => (st, "bad-op")
        | some fe =>
          -- the cursor that decides the kind of a dynamic route is the one the request resolves to
          let probe : Req := { md := md, fetch := fe }
          let lookMd := match resolveInput cfg probe with
            | .ok r => r.md
            | .error _ => md
          match routeOf st.w lookMd route with
          | some (dyn, pr) =>
            let req : Req :=
              match fe with
              | none => { inst := i, routeProducer := pr, dynamic := dyn, md := md,
                          vals := if schema = "empty" then [] else vs,
                          schemaOk := sok, exact := schema = "ok", env := { wire := wire } }
              | some _ => { inst := i, routeProducer := pr, dynamic := dyn, md := md, vals := [],
                            schemaOk := true, exact := true, fetch := fe, env := { wire := wire } }
            let (resp, w', evs) := handleExchangeX cfg st.w req
            ({ st with cfg := some cfg, w := w' }, showResp w' resp evs true)
          | none => (st, "bad-op")
      | _, _, _ => (st, "bad-op")
    | _, _, _, _ => (st, "bad-op")
  | "strip" :: rest =>
    match parseMetaWords st.w rest with
    | some md => (st, showSeen (stripFramework md))
    | none => (st, "bad-op")
  | _ => (st, "bad-op")

def drive : IO Unit := driveLoop ({} : St) step

end Vgi.Drive.C16

def main : IO Unit := Vgi.Drive.C16.drive
