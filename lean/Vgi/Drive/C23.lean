import Vgi.Model.Auth
/-!
Line protocol for C23.

Error values in prefix notation, one token per node:
  U<n>            *AuthUnavailableError{RetryAfter: n}
  F:<reason>:<detail>   *AuthFailure          (byte strings as x<hex>)
  R:<type>:<msg>  *RpcError
  O               some other error
  W <e>           a value whose Unwrap() error is <e>
  J<k> <e1>…<ek>  a value whose Unwrap() []error is [<e1>…<ek>]

  auth <www> <e>                    the server's authenticator returns <e>; <www> = configured WWW-Authenticate
      -> status=503 retry=<n> | status=401 reason=<x> cache=<x> www=<x|-> | status=500
  authc <www> <e>                   same, but the authenticator returns (non-nil context, <e>)
  chain <www> <o1> / <o2> / …       ChainAuthenticate(o1, o2, …) installed; <oi> = OK | <e> | C <e>  (C: context AND error)
      -> calls=<k> ret=ok:<i> pass | calls=<k> ret=err:<i> <response> | calls=<k> ret=exhausted <response>
-/
namespace Vgi.Drive.C23
open Vgi Vgi.Auth

def parseLeaf2 (rest : List Char) : Option (Bytes × Bytes) :=
  match (String.ofList rest).splitOn ":" with
  | [a, b] => match parseHexArg a, parseHexArg b with
    | some x, some y => some (x, y)
    | _, _ => none
  | _ => none

mutual
def parseE : Nat → List String → Option (AErr × List String)
  | 0, _ => none
  | _ + 1, [] => none
  | f + 1, w :: ws =>
    match w.toList with
    | ['O'] => some (.other, ws)
    | ['W'] => match parseE f ws with
      | some (e, r) => some (.wrap e, r)
      | none => none
    | 'U' :: rest => match (String.ofList rest).toInt? with
      | some n => some (.unavailable n, ws)
      | none => none
    | 'F' :: ':' :: rest => match parseLeaf2 rest with
      | some (a, b) => some (.authFailure a b, ws)
      | none => none
    | 'R' :: ':' :: rest => match parseLeaf2 rest with
      | some (a, b) => some (.rpc a b, ws)
      | none => none
    | 'J' :: rest => match (String.ofList rest).toNat? with
      | some k => match parseN f k ws with
        | some (es, r) => some (.join es, r)
        | none => none
      | none => none
    | _ => none
def parseN : Nat → Nat → List String → Option (List AErr × List String)
  | 0, _, _ => none
  | _ + 1, 0, ws => some ([], ws)
  | f + 1, k + 1, ws => match parseE f ws with
    | some (e, r) => match parseN f k r with
      | some (es, r') => some (e :: es, r')
      | none => none
    | none => none
end

def parseWhole (ws : List String) : Option AErr :=
  match parseE (2 * ws.length + 2) ws with
  | some (e, []) => some e
  | _ => none

def parseOutcome (ws : List String) : Option Outcome :=
  match ws with
  | ["OK"] => some .ok
  | "C" :: rest => (parseWhole rest).map .ctxErr
  | _ => (parseWhole ws).map .err

/-- split a word list on "/" -/
def splitSlash : List String → List (List String)
  | [] => [[]]
  | w :: ws =>
    if w = "/" then [] :: splitSlash ws
    else match splitSlash ws with
      | [] => [[w]]
      | x :: xs => (w :: x) :: xs

def showResp (r : Resp) : String :=
  match r.status with
  | 503 => s!"status=503 retry={r.retryAfter.getD 0}"
  | 401 =>
    let www := match r.wwwAuth with | some w => hexArg w | none => "-"
    s!"status=401 reason={hexArg (r.reason.getD [])} cache={hexArg (r.cacheControl.getD [])} www={www}"
  | n => s!"status={n}"

def step (st : Unit) (ws : List String) : Unit × String :=
  match ws with
  | "authc" :: www :: expr =>   -- the authenticator returns a non-nil context together with the error
    match parseHexArg www, parseWhole expr with
    | some w, some e => (st, showResp (respond w e))
    | _, _ => (st, "bad-op")
  | "auth" :: www :: expr =>
    match parseHexArg www, parseWhole expr with
    | some w, some e => (st, showResp (respond w e))
    | _, _ => (st, "bad-op")
  | "chain" :: www :: rest =>
    match parseHexArg www, (splitSlash rest).mapM parseOutcome with
    | some w, some os =>
      let r := chain os
      let tail := match serveChain w os with
        | none => "pass"
        | some resp => showResp resp
      let ret := match r.1 with
        | .okAt i => s!"ok:{i}"
        | .errAt i _ => s!"err:{i}"
        | .exhausted => "exhausted"
      (st, s!"calls={r.2} ret={ret} {tail}")
    | _, _ => (st, "bad-op")
  | _ => (st, "bad-op")

def drive : IO Unit := driveLoop () step

end Vgi.Drive.C23

def main : IO Unit := Vgi.Drive.C23.drive
