import Vgi.Model.External
/-!
Line protocol for C30 (stateless; every line is one call).

```
ext cfg=<0|1> storage=<0|1> thr=<int> alg=<hex|-> level=<int> rows=<n> buf=<n>
    rawlen=<n> sha=<hex> url=<hex|!>          (url=! : Storage.Upload fails)
  -> inline | err:encoder | err:upload enc=<hex> data=<raw|zenc>
   | ptr meta=<meta> charged=<n> enc=<hex> data=<raw|zenc>
res cfg=<0|1> val=<nil|ok|rej> rows=<n> meta=<meta> fetch=<ok|err> digest=<hex>
    parse=<none|-|batch;batch;...>
  -> pass | err:<kind> | ok <batch> | ok one-of-several-data
```
`meta` = `-` or `k=v,k=v` (hex without prefix); `batch` = `schema:rows:payloadhex:meta`.
-/
namespace Vgi.Drive.C30
open Vgi Vgi.External

def hexPlain (s : String) : Option Bytes := bytesOfHexAux s.toList

def kv (ws : List String) (k : String) : Option String :=
  match ws.find? (fun w => w.startsWith (k ++ "=")) with
  | some w => some (String.ofList (w.toList.drop (k.length + 1)))
  | none => none

def parsePair (s : String) : Option (Bytes × Bytes) :=
  match s.splitOn "=" with
  | [k, v] => match hexPlain k, hexPlain v with
    | some a, some b => some (a, b)
    | _, _ => none
  | _ => none

def parseMeta (s : String) : Option Meta :=
  if s = "-" then some []
  else (s.splitOn ",").mapM parsePair

def showMeta (m : Meta) : String :=
  if m.isEmpty then "-"
  else ",".intercalate (m.map fun p => hexOfBytes p.1 ++ "=" ++ hexOfBytes p.2)

def parseBatch (s : String) : Option Batch :=
  match s.splitOn ":" with
  | [sc, r, p, m] => match sc.toNat?, r.toNat?, hexPlain p, parseMeta m with
    | some sc, some r, some p, some m => some ⟨sc, r, p, m⟩
    | _, _, _, _ => none
  | _ => none

def showBatch (b : Batch) : String :=
  s!"{b.schema}:{b.rows}:{hexOfBytes b.payload}:{showMeta b.md}"

def parseStream (s : String) : Option (Option (List Batch)) :=
  if s = "none" then some none
  else if s = "-" then some (some [])
  else match (s.splitOn ";").mapM parseBatch with
    | some bs => some (some bs)
    | none => none

def flag (s : String) : Option Bool :=
  if s = "1" then some true else if s = "0" then some false else none

def showUpload (raw : Bytes) (up : Upload) : String :=
  -- (compared by length: the toy encoder changes the length, and list equality is not
  -- tail-recursive — multi-megabyte payloads would exhaust the stack)
  s!"enc={hexOfBytes up.enc} data={if up.data.length = raw.length then "raw" else "zenc"}"

def doExt (ws : List String) : Option String := do
  let cfgOn ← (kv ws "cfg") >>= flag
  let storage ← (kv ws "storage") >>= flag
  let thr ← (kv ws "thr") >>= String.toInt?
  let algS ← kv ws "alg"
  let level ← (kv ws "level") >>= String.toInt?
  let rows ← (kv ws "rows") >>= String.toNat?
  let buf ← (kv ws "buf") >>= String.toNat?
  let rawlen ← (kv ws "rawlen") >>= String.toNat?
  let sha ← (kv ws "sha") >>= hexPlain
  let urlS ← kv ws "url"
  let comp ← if algS = "-" then some none else (hexPlain algS).map fun a => some (⟨a, level⟩ : Compression)
  let url ← if urlS = "!" then some none else (hexPlain urlS).map some
  -- the environment: the raw IPC bytes are `rawlen` bytes with digest `sha`; the toy encoder
  -- only has to produce something different from its input
  let raw : Bytes := List.replicate rawlen 0
  let w : World := { ser := fun _ => raw, parse := fun _ => none, sha := fun _ => sha,
                     zenc := fun x => 1 :: x, zdec := fun _ => none }
  let b : Batch := ⟨0, rows, [], []⟩
  let cfg : Option ExtCfg := if cfgOn then some ⟨storage, thr, comp⟩ else none
  pure <| match externalize w cfg b buf (fun _ => url) with
    | .inline => "inline"
    | .encoderErr => "err:encoder"
    | .uploadErr up => "err:upload " ++ showUpload raw up
    | .pointer _ m charged up => s!"ptr meta={showMeta m} charged={charged} " ++ showUpload raw up

def errName : ResErr → String
  | .missingUrl => "missing-url" | .validator => "validator" | .fetch => "fetch"
  | .checksum => "checksum" | .parse => "parse" | .loop => "loop" | .noData => "nodata"

def doRes (ws : List String) : Option String := do
  let cfgOn ← (kv ws "cfg") >>= flag
  let valS ← kv ws "val"
  let rows ← (kv ws "rows") >>= String.toNat?
  let m ← (kv ws "meta") >>= parseMeta
  let fetchS ← kv ws "fetch"
  let digest ← (kv ws "digest") >>= hexPlain
  let parsed ← (kv ws "parse") >>= parseStream
  let validator : Option (Bytes → Bool) ←
    if valS = "nil" then some none
    else if valS = "ok" then some (some fun _ => true)
    else if valS = "rej" then some (some fun _ => false)
    else none
  let fetchOk ← if fetchS = "ok" then some true else if fetchS = "err" then some false else none
  let cfg : Option ResCfg := if cfgOn then some ⟨validator⟩ else none
  let fetch : Bytes → Except Unit Fetched := fun _ =>
    if fetchOk then .ok ⟨digest, parsed⟩ else .error ()
  pure <| match resolveCore cfg rows m fetch with
    | .pass => "pass"
    | .err e => "err:" ++ errName e
    | .ok d =>
      -- which of several data batches is returned is not part of the property
      let nData := match parsed with
        | some bs => (bs.filter fun b => !isLogBatch b).length
        | none => 0
      if nData ≥ 2 then "ok one-of-several-data" else "ok " ++ showBatch d

def step (st : Unit) (ws : List String) : Unit × String :=
  match ws with
  | "ext" :: rest => (st, (doExt rest).getD "bad-op")
  | "res" :: rest => (st, (doRes rest).getD "bad-op")
  | _ => (st, "bad-op")

def drive : IO Unit := driveLoop () step

end Vgi.Drive.C30

def main : IO Unit := Vgi.Drive.C30.drive
