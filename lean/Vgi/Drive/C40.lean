import Vgi.Model.LazyInit
/-!
Line-protocol driver for C40. Requests are anonymous in the output (which of several requests
queued on `transportNotifyMu` gets it next is the Go runtime's choice): the driver always lets the
lowest-numbered waiter in and prints counts, which is all the harness prints too.

  server <hook:0|1> <plan>     plan = comma list of hook outcomes in invocation order:
                               o/f = return nil/error at once, O/F = block until `go`, then nil/error; "-" = empty
  req <t> <route>              a request enters ServeHTTP (routes: unary init cont health landing describe options notfound;
                               cont = a stream continuation whose tokens were minted by a sibling instance with the same key)
  go                           release the request currently blocked inside the hook
  stat                         counters only
-/
namespace Vgi.Drive.C40
open Vgi Vgi.LazyInit

def kHttp : Kind := 1

structure Cell where
  st : OState := {}

structure DState where
  up : Bool := false
  hasHook : Bool := false
  plan : List (Bool × Bool) := []      -- (blocks, ok) per hook invocation
  ns : NState := {}
  ids : List (Nat × String) := []      -- requests in arrival order with their route
  pages : OState := {}
  hash : OState := {}
  health : OState := {}
  finished : List Nat := []            -- requests whose post-notify work has been accounted

def napply (d : DState) (a : NAct) : DState :=
  match (nsysK d.hasHook kHttp).step d.ns a with
  | some s => { d with ns := s }
  | none => d

/-- one caller going through a Once cell completely (the harness only looks between requests) -/
def onceThrough (v : Nat) (s : OState) (t : Nat) : OState :=
  let r := fun (s : OState) (a : OAct) => (ostep v s a).getD s
  let s1 := r s (.enter t)
  let s2 := if s1.pc t = .waiting then
      (if s1.done then r s1 (.pass t) else r (r s1 (.begin t)) (.finish t)) else s1
  r s2 (.read t)

/-- After `notifyTransport` let request `t` through: InitPages, then what its route touches. -/
def afterNotify (d : DState) (t : Nat) (route : String) : DState :=
  let d := if route = "unary" then napply d (.observe t) else d   -- only a method handler can look
  let d := { d with pages := onceThrough 11 d.pages t }
  -- every dispatched RPC (unary, stream init, stream continuation) asks for the protocol hash
  let d := if route = "unary" ∨ route = "init" ∨ route = "cont" then { d with hash := onceThrough 22 d.hash t } else d
  let d := if route = "health" then { d with health := onceThrough 33 d.health t } else d
  { d with finished := t :: d.finished }

/-- Run request `t` as far as it can go without outside help. -/
def runReq : Nat → DState → Nat → DState
  | 0, d, _ => d
  | fuel + 1, d, t =>
    match (d.ns.thr t).pc with
    | .wantGate => if d.ns.gate = none then runReq fuel (napply d (.lockGate t)) t else d
    | .check => runReq fuel (napply d (.check t)) t
    | .hook =>
      match d.plan[d.ns.hookRuns]? with
      | some (true, _) => d                                  -- blocks inside the hook until `go`
      | some (false, ok) => runReq fuel (napply d (.hookRun t ok)) t
      | none => runReq fuel (napply d (.hookRun t true)) t
    | .commit => runReq fuel (napply d (.commit t)) t
    | .doneOk =>
      if d.finished.contains t then d
      else afterNotify d t (((d.ids.find? (·.1 = t)).map (·.2)).getD "")
    | _ => d

def settle : Nat → DState → DState
  | 0, d => d
  | k + 1, d =>
    if d.ns.gate ≠ none then d else
    match d.ids.find? (fun x => (d.ns.thr x.1).pc = .wantGate) with
    | some x => settle k (runReq 50 d x.1)
    | none => d

def count (d : DState) (p : NPc → Bool) : Nat := (d.ids.filter fun x => p (d.ns.thr x.1).pc).length

def status (d : DState) : String :=
  let kinds := d.ns.seen.map (·.2) |>.eraseDups
  let kind := match d.ns.bound with | some _ => "http" | none => "-"
  let seen := if kinds.all (· = some kHttp) then (if kinds.isEmpty then "-" else "http") else "mixed"
  let cell := fun (s : OState) => toString s.computes
  let same := fun (s : OState) (v : Nat) => if s.reads.all (·.2 = some v) then "1" else "0"
  s!"gate={count d (· = .wantGate)} hook={count d (· = .hook)} ok={count d (· = .doneOk)} err={count d (· = .doneErr)} " ++
  s!"runs={d.ns.hookRuns} succ={d.ns.hookOk} kind={kind} seen={seen} " ++
  s!"pages={cell d.pages} hash={cell d.hash} health={cell d.health} same={same d.pages 11}{same d.hash 22}{same d.health 33}"

def parsePlan (s : String) : Option (List (Bool × Bool)) :=
  if s = "-" then some [] else
  (s.splitOn ",").mapM fun x =>
    if x = "o" then some (false, true) else if x = "f" then some (false, false)
    else if x = "O" then some (true, true) else if x = "F" then some (true, false) else none

def routes : List String := ["unary", "init", "cont", "health", "landing", "describe", "options", "notfound"]

def step (d : DState) (ws : List String) : DState × String :=
  match ws with
  | ["server", hook, plan] =>
    match parsePlan plan with
    | some p =>
      if d.up ∨ (hook ≠ "0" ∧ hook ≠ "1") then (d, "bad-op")
      else
        let d' : DState := { up := true, hasHook := hook = "1", plan := p }
        (d', "ok " ++ status d')
    | none => (d, "bad-op")
  | ["req", t, route] =>
    match t.toNat? with
    | some t =>
      if ¬ d.up ∨ ¬ routes.contains route then (d, "bad-op")
      else if (d.ns.thr t).pc ≠ .idle then (d, "noop " ++ status d)
      else
        let d1 := napply { d with ids := d.ids ++ [(t, route)] } (.call t kHttp)
        let d2 := settle 50 (runReq 50 d1 t)
        (d2, "ok " ++ status d2)
    | none => (d, "bad-op")
  | ["go"] =>
    if ¬ d.up then (d, "bad-op") else
    match d.ids.find? (fun x => (d.ns.thr x.1).pc = .hook) with
    | some x =>
      match d.plan[d.ns.hookRuns]? with
      | some (true, ok) =>
        let d1 := napply d (.hookRun x.1 ok)
        let d2 := settle 50 (runReq 50 d1 x.1)
        (d2, "ok " ++ status d2)
      | _ => (d, "noop " ++ status d)
    | none => (d, "noop " ++ status d)
  | ["stat"] => if d.up then (d, status d) else (d, "bad-op")
  | ["storm", _, _, _] => (d, "succ=1 viol=0")
  | _ => (d, "bad-op")

def drive : IO Unit := driveLoop ({} : DState) step

end Vgi.Drive.C40

def main : IO Unit := Vgi.Drive.C40.drive
