import Vgi.Model.ScriptHooks
import Vgi.Drive.StreamParse
/-!
Line-protocol driver for C37 (dispatch hooks over call histories, pipe and HTTP).

  hist <producerBatchLimit> <plain|wirecap|extcap|sticky|pver>  first line of a case (server configuration)
  P <mode> U <declSchema> <void> <lvl> <rid> <unary script>   pipe unary call        (grammar: Drive/C04)
  P <mode> S <method facts> <lvl> <rid> <stream script> IN …  pipe stream call       (grammar: Drive/C06)
  P <mode> S@<k> …   the same, the serve context being cancelled during turn k;  P <mode> U@ …  unary whose
  handler cancels the serve context;  P <mode> DEAD  a call on a session cancelled before Serve started
  P <mode> X | P <mode> B                                     unknown method | parameters that do not deserialize
  H <mode> U … | H <mode> X | H <mode> B                      the same over HTTP
  H <mode> I <label> <enc:0|1> <method facts> <lvl> <stream script>     POST /<m>/init
  H <mode> E <label> <srcFields> (d <val> <lib> | c)                    POST /<m>/exchange with the label's latest token
  P <mode> SU | H <mode> SU                                   unary whose result cannot be serialized
  P <mode> VU                                                 protocol-version mismatch on a pipe (refused before the hook)
  H <mode> VU | VI | KU | KI | BI                             refused after the hook started: version mismatch (unary/init),
                                                              lost sticky session (unary/init), undeserializable init parameters
  H <mode> KE <label>                                         lost sticky session on /exchange with the label's token
  mode ::= normal | nilctx | pstart | pend        (what the installed hook does on this call)

Answer: `ev=<hook events> err=<0|1>` (+ ` token=<0|1>` for I/E lines), `no-token` for an E line
whose label holds no token. Events: `S<tok>[!]`, `E<tok|nil>:<err>[!]` (`!` = the hook panicked).
-/
namespace Vgi.Drive.C37
open Vgi Vgi.Script Vgi.Drive.ScriptParse Vgi.Drive.StreamParse

structure Label where
  name : String
  m : SMethod
  script : StreamScript
  isProducer : Bool
  declared : Option Schema    -- input schema the init declared (`StreamResult.InputSchema`)
  held : Option Nat           -- cursor inside the token the client holds

structure St where
  nextTok : Nat
  limit : Nat
  cfg : HttpCfg
  labels : List Label

def init : St := { nextTok := 1, limit := 2, cfg := .plain, labels := [] }

def pCfg : String → Option HttpCfg
  | "plain" => some .plain | "sticky" => some .plain | "pver" => some .plain
  | "wirecap" => some .wireCap | "extcap" => some .extCap
  | _ => none

def pMode : String → Option HookMode
  | "normal" => some .normal | "nilctx" => some .nilCtx | "pstart" => some .panicStart | "pend" => some .panicEnd
  | _ => none

def showEvent : HookEvent → String
  | .start t p => s!"S{t}{if p then "!" else ""}"
  | .finish t e p => s!"E{match t with | some n => toString n | none => "nil"}:{if e then 1 else 0}{if p then "!" else ""}"

def showEvents (es : List HookEvent) : String :=
  if es.isEmpty then "-" else ",".intercalate (es.map showEvent)

def b01 (b : Bool) : String := if b then "1" else "0"

/-- Run the hook around an outcome; a token is consumed by every `OnDispatchStart` entry. -/
def finishCall (st : St) (mode : HookMode) (o : CallOutcome) (extra : String) : St × String :=
  let ev := dispatch (some mode) st.nextTok o
  let st' := { st with nextTok := nextToken st.nextTok o }
  (st', s!"ev={showEvents ev} err={b01 o.respError}{extra}")

def findLabel (ls : List Label) (n : String) : Option Label := ls.find? (·.name == n)

def setLabel (ls : List Label) (l : Label) : List Label := l :: ls.filter (·.name != l.name)

def step (st : St) (ws : List String) : St × String :=
  match ws with
  | ["hist", n, cfg] => match n.toNat?, pCfg cfg with
    | some k, some cfg => if k = 0 then (st, "bad-op") else ({ nextTok := 1, limit := k, cfg := cfg, labels := [] }, "ok")
    | _, _ => (st, "bad-op")
  | tr :: mode :: kind :: rest =>
    match pMode mode with
    | none => (st, "bad-op")
    | some mode =>
      match tr, kind, rest with
      | _, "X", [] => if tr = "P" || tr = "H" then finishCall st mode unknownMethodOutcome "" else (st, "bad-op")
      | _, "B", [] => if tr = "P" || tr = "H" then finishCall st mode badParamsOutcome "" else (st, "bad-op")
      | _, "SU", [] => if tr = "P" || tr = "H" then finishCall st mode serializationErrorOutcome "" else (st, "bad-op")
      | "P", "VU", [] => finishCall st mode pipeVersionRefusedOutcome ""
      | "H", "VU", [] => finishCall st mode refusedAfterStartOutcome ""
      | "H", "VI", [] => finishCall st mode refusedAfterStartOutcome ""
      | "H", "KU", [] => finishCall st mode refusedAfterStartOutcome ""
      | "H", "KI", [] => finishCall st mode refusedAfterStartOutcome ""
      | "H", "BI", [] => finishCall st mode refusedAfterStartOutcome ""
      | "H", "KE", [label] =>
        match findLabel st.labels label with
        | some l => match l.held with
          | some _ => finishCall st mode refusedAfterStartOutcome " token=0"
          | none => (st, "no-token")
        | none => (st, "no-token")
      | "P", "U", rest =>
        match parseUnaryCall ("call" :: "pipe" :: rest) with
        | some (_, m, lvl, rid, s) => finishCall st mode (pipeUnaryOutcome m lvl rid s) ""
        | none => (st, "bad-op")
      | "H", "U", rest =>
        match parseUnaryCall ("call" :: "http" :: rest) with
        | some (_, m, lvl, rid, s) => finishCall st mode (httpUnaryOutcome st.cfg m lvl rid s) ""
        | none => (st, "bad-op")
      | "P", "S", rest =>
        match pCall rest with
        | some (c, []) => finishCall st mode (pipeStreamOutcome c.m c.lvl c.rid c.script c.input) ""
        | _ => (st, "bad-op")
      | "P", "DEAD", [] => (st, "dead")     -- sent on a session whose context was cancelled before Serve
      | "P", "U@", rest =>                  -- the handler cancels the serve context: the call itself is unaffected
        match parseUnaryCall ("call" :: "pipe" :: rest) with
        | some (_, m, lvl, rid, s) => finishCall st mode (pipeUnaryOutcome m lvl rid s) ""
        | none => (st, "bad-op")
      | "H", "I", label :: enc :: rest =>
        match pBool enc, pMethod rest with
        | some enc, some (m, rest) =>
          match pBytes rest with
          | some (_, rest) =>
            match pScript rest with
            | some (s, []) =>
              let r := httpInit st.cfg m st.limit s enc
              let isP := match s.init with
                | .ok k _ _ _ => (decideMode m.typ k).getD false
                | _ => false
              let decl := match s.init with
                | .ok _ _ _ ri => ri
                | _ => none
              let (st', out) := finishCall st mode r.outcome s!" token={b01 r.token.isSome}"
              let lab : Label := { name := label, m := m, script := s, isProducer := isP, declared := decl, held := r.token }
              ({ st' with labels := setLabel st'.labels lab }, out)
            | _ => (st, "bad-op")
          | none => (st, "bad-op")
        | _, _ => (st, "bad-op")
      | "H", "E", label :: src :: inp =>
        match findLabel st.labels label, pFields src with
        | some l, some src =>
          match l.held with
          | none => (st, "no-token")
          | some k =>
            let inp? : Option HttpInput := match inp with
              | ["c"] => some .cancel
              | ["d", v, lib] => some (.data v (if lib = "fail" || lib = "-" then none else some lib))
              | _ => none
            match inp? with
            | none => (st, "bad-op")
            | some inp =>
              let r := httpExchange st.cfg l.m st.limit l.script l.isProducer l.declared k src inp
              let (st', out) := finishCall st mode r.outcome s!" token={b01 r.token.isSome}"
              -- the client keeps its old token unless the response carries a new one
              let held := match r.token with | some c => some c | none => l.held
              let lab : Label := { l with held := held }
              ({ st' with labels := setLabel st'.labels lab }, out)
        | none, some _ => (st, "no-token")
        | _, none => (st, "bad-op")
      | "P", k, rest =>
        -- `S@<k>`: a stream call during whose turn k the serve context is cancelled
        if k.startsWith "S@" then
          match (k.drop 2).toNat?, pCall rest with
          | some n, some (c, []) => finishCall st mode (pipeStreamCancelledOutcome c.m c.lvl c.rid c.script c.input n) ""
          | _, _ => (st, "bad-op")
        else (st, "bad-op")
      | _, _, _ => (st, "bad-op")
  | _ => (st, "bad-op")

def drive : IO Unit := driveLoop init step

end Vgi.Drive.C37

def main : IO Unit := Vgi.Drive.C37.drive
