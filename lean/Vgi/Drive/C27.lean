import Vgi.Model.OAuthFlow
import Vgi.Model.OAuthSha256
namespace Vgi.Drive.C27
open Vgi Vgi.OAuth

def mac : Bytes → Bytes → Bytes := Sha256.hmac

structure St where
  cfg : Option Cfg := none

/-- `-` = empty list, otherwise comma-separated `x<hex>` items. -/
def parseList (s : String) : Option (List Bytes) :=
  if s = "-" then some [] else (s.splitOn ",").mapM parseHexArg

/-- `-` = absent, otherwise `x<hex>`. -/
def parseOpt (s : String) : Option (Option Bytes) :=
  if s = "-" then some none else (parseHexArg s).map some

def parseBool (s : String) : Option Bool :=
  if s = "1" then some true else if s = "0" then some false else none

def sessionLabel : Bytes := bytesOfString "oauth-pkce-session"

def showExch : Option (Bytes × Bytes) → String
  | none => "exch=-"
  | some (c, v) => s!"exch={hexArg c}:{hexArg v}"

def step (st : St) (ws : List String) : St × String :=
  match ws with
  | ["pack", v, s, u, r, k, t] =>
    match parseHexArg v, parseHexArg s, parseHexArg u, parseHexArg r, parseHexArg k, t.toInt? with
    | some v, some s, some u, some r, some k, some t => (st, hexArg (pack mac v s u r k t))
    | _, _, _, _, _, _ => (st, "bad-op")
  | ["unpack", c, k, maxAge, now] =>
    match parseHexArg c, parseHexArg k, maxAge.toInt?, now.toInt? with
    | some c, some k, some maxAge, some now =>
      match unpack mac c k maxAge now with
      | .ok f => (st, s!"ok {hexArg f.verifier} {hexArg f.state} {hexArg f.originalURL} {hexArg f.returnTo}")
      | .error _ => (st, "err")
    | _, _, _, _ => (st, "bad-op")
  | ["parse", u] =>
    match parseHexArg u with
    | some u =>
      match parseURL u with
      | some p => (st, s!"ok {hexArg p.scheme} {hexArg p.host} {hexArg (hostname p.host)} {hexArg (port p.host)}")
      | none => (st, "err")
    | none => (st, "bad-op")
  | ["origurl", u, p] =>
    match parseHexArg u, parseHexArg p with
    | some u, some p => (st, hexArg (validateOriginalURL u p))
    | _, _ => (st, "bad-op")
  | ["returnto", u, allow] =>
    match parseHexArg u, parseList allow with
    | some u, some allow => (st, hexArg (validateReturnTo u allow))
    | _, _ => (st, "bad-op")
  | ["cfg", p, allow, key] =>
    match parseHexArg p, parseList allow, parseHexArg key with
    | some p, some allow, some key =>
      let sk := mac key sessionLabel
      ({ cfg := some ⟨p, allow, sk⟩ }, "ok " ++ hexArg sk)
    | _, _, _ => (st, "bad-op")
  | ["login", path, q, rt, v, s, t] =>
    match st.cfg, parseHexArg path, parseHexArg q, parseHexArg rt, parseHexArg v, parseHexArg s, t.toInt? with
    | some cfg, some path, some q, some rt, some v, some s, some t =>
      (st, "cookie " ++ hexArg (loginCookie mac cfg path q rt v s t))
    | none, _, _, _, _, _, _ => (st, "err:no-cfg")
    | _, _, _, _, _, _, _ => (st, "bad-op")
  | ["callback", e, code, state, cookie, now, disc, idp] =>
    match st.cfg, parseHexArg e, parseHexArg code, parseHexArg state, parseOpt cookie, now.toInt?,
        parseBool disc, parseOpt idp with
    | some cfg, some e, some code, some state, some cookie, some now, some disc, some idp =>
      let r := callback mac cfg e code state cookie now disc idp
      match r.out with
      | .refused n => (st, s!"refused {n} {showExch r.exchanged}")
      | .external loc => (st, s!"external {hexArg loc} {showExch r.exchanged}")
      | .sameOrigin loc tok => (st, s!"local {hexArg loc} {hexArg tok} {showExch r.exchanged}")
    | none, _, _, _, _, _, _, _ => (st, "err:no-cfg")
    | _, _, _, _, _, _, _, _ => (st, "bad-op")
  | ["early", rt, tok, exp] =>
    match st.cfg, parseHexArg rt, parseOpt tok, parseBool exp with
    | some cfg, some rt, some tok, some exp =>
      match earlyReturn cfg rt tok exp with
      | some loc => (st, "redirect " ++ hexArg loc)
      | none => (st, "pass")
    | none, _, _, _ => (st, "err:no-cfg")
    | _, _, _, _ => (st, "bad-op")
  | ["nop"] => (st, "nop")
  | _ => (st, "bad-op")

def drive : IO Unit := driveLoop ({} : St) step

end Vgi.Drive.C27

def main : IO Unit := Vgi.Drive.C27.drive
