def hello := "world"
