/-
Shared helpers for the line-protocol drivers (core Lean only: no Mathlib here,
the driver is linked as a native executable).
-/
namespace Vgi

abbrev Bytes := List UInt8

def hexDigit (n : Nat) : Char :=
  if n < 10 then Char.ofNat (48 + n) else Char.ofNat (87 + n)

def hexOfBytes (bs : Bytes) : String :=
  String.ofList (bs.flatMap fun b => [hexDigit (b.toNat / 16), hexDigit (b.toNat % 16)])

def hexVal (c : Char) : Option Nat :=
  if '0' ≤ c ∧ c ≤ '9' then some (c.toNat - 48)
  else if 'a' ≤ c ∧ c ≤ 'f' then some (c.toNat - 87)
  else if 'A' ≤ c ∧ c ≤ 'F' then some (c.toNat - 55)
  else none

def bytesOfHexAux : List Char → Option Bytes
  | [] => some []
  | [_] => none
  | a :: b :: rest =>
    match hexVal a, hexVal b, bytesOfHexAux rest with
    | some x, some y, some r => some (UInt8.ofNat (x * 16 + y) :: r)
    | _, _, _ => none

/-- `x<hex>` argument → bytes (the leading `x` lets an empty byte string be a token). -/
def parseHexArg (s : String) : Option Bytes :=
  match s.toList with
  | 'x' :: rest => bytesOfHexAux rest
  | _ => none

def hexArg (bs : Bytes) : String := "x" ++ hexOfBytes bs

def bytesOfString (s : String) : Bytes := s.toUTF8.toList

def splitWords (line : String) : List String :=
  (line.splitOn " ").filter (· ≠ "")

def stripNL (line : String) : String :=
  let l := line.toList
  let l := if l.getLast? = some '\n' then l.dropLast else l
  let l := if l.getLast? = some '\r' then l.dropLast else l
  String.ofList l

/-- Generic driver loop: `#case n` lines reset the state and are echoed; every other line is
handed to `step`. One output line per input line. -/
partial def driveLoop {σ : Type} (init : σ) (step : σ → List String → σ × String) : IO Unit := do
  let stdin ← IO.getStdin
  let stdout ← IO.getStdout
  let rec loop (s : σ) : IO Unit := do
    let line ← stdin.getLine
    if line.isEmpty then
      stdout.flush
      return ()
    let l := stripNL line
    if l.startsWith "#case" then
      stdout.putStrLn l
      loop init
    else
      let (s', out) := step s (splitWords l)
      stdout.putStrLn out
      loop s'
  loop init

def parseInt? (s : String) : Option Int := s.toInt?
def parseNat? (s : String) : Option Nat := s.toNat?

end Vgi
